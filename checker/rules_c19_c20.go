package main

import (
	"fmt"
	"go/ast"
	"go/constant"
	"go/token"
	"go/types"
	"strings"

	"golang.org/x/tools/go/ssa"
)

func init() {
	register(&Rule{
		ID: "R19.1", Props: []string{"C19"}, Engine: "flow + guard",
		Text:  "patch in, unpatch out, reject unknown names first: in demultiplexingBlobAccess.{Get,GetFromComposite,Put,GetCapabilities} the backend, its name and its patcher all come from one getBackend call on the instance name of the operation's digest, every backend call is dominated by that call's nil error, every digest handed to the backend went through that patcher's PatchDigest (PatchInstanceName for capabilities), and errors are wrapped with that backend's name; in FindMissing every digest is added to its partition through the partition's own patcher, each partition's backend is asked about exactly that partition's set, and every digest of its answer goes through the same partition's UnpatchDigest into the result",
		Floor: 8, MustExist: true, Run: runR191,
	})
	register(&Rule{
		ID: "R19.4", Props: []string{"C19"}, Engine: "guard (guarded update)",
		Text:  "longest-prefix lookup never forgets a match: in InstanceNameTrie.GetLongestPrefix the best-so-far value is replaced only by a node value that was tested >= 0, and a final component's value is returned only when tested >= 0; otherwise the best-so-far is returned",
		Floor: 2, MustExist: true, Run: runR194,
	})
	register(&Rule{
		ID: "R19.5", Props: []string{"C19"}, Engine: "order (use after overwrite) + guard",
		Text:  "hierarchical FindMissing reports a digest missing exactly when its ancestor chain is exhausted: in the pruning loop of hierarchicalInstanceNamesBlobAccess.FindMissing an element is never read through its pointer after it was overwritten by the swap-remove of the same iteration; a digest is added to the result only when it has no ancestors left and the last ancestor asked about was reported missing; an element whose ancestor was found is dropped without being reported",
		Floor: 3, MustExist: true, Run: runR195,
	})
	register(&Rule{
		ID: "R20.1", Props: []string{"C20"}, Engine: "own (who may construct / call)",
		Text:  "validated-constructor discipline in pkg/digest: Function.newDigestUnchecked is called only from Function.NewDigest (after the hash-length, lowercase-hex and non-negative-size checks) and from Generator.Sum; Digest values are built only there and in the instance-name patching / parent-enumeration helpers; InstanceName values are built only after validation (NewInstanceName*), by the patcher and by projections of an existing digest; every new construction site is a violation until reviewed",
		Floor: 8, MustExist: true, Run: runR201,
	})
	register(&Rule{
		ID: "R20.2", Props: []string{"C20"}, Engine: "table",
		Text:  "separators are reserved and the function tables agree: every keyword the ByteStream path parsers split on (blobs, compressed-blobs, uploads, …) is a key of reservedInstanceNameKeywords, so a valid instance name cannot contain a separator; every element of SupportedDigestFunctions has its case in getBareFunction whose enum value equals the case label, all enum values fit the two-digit packing (< 100)",
		Floor: 3, MustExist: true, Run: runR202,
	})
	register(&Rule{
		ID: "R20.4", Props: []string{"C20"}, Engine: "flow (aliasing)",
		Text:  "set operations never write into another set's storage: in pkg/digest a Set built from a sub-slice of another set's backing array has its capacity clipped (three-index slice) whenever the function goes on to append to a set; SetBuilder.Build sorts and de-duplicates before constructing the Set",
		Floor: 3, MustExist: true, Run: runR204,
	})
}

func runR191(c *Ctx) {
	T := c.LookupType(blobstoreRel, "demultiplexingBlobAccess")
	if T == nil {
		c.Broken("demultiplexingBlobAccess not found")
		return
	}
	dig := c.LookupType(digestRel, "Digest")
	for _, m := range []string{"Get", "GetFromComposite", "Put", "GetCapabilities"} {
		fn := c.Method(blobstoreRel, "demultiplexingBlobAccess", m)
		if fn == nil {
			c.Broken("demultiplexingBlobAccess.%s not found", m)
			continue
		}
		name := FuncName(fn)
		var gb *ssa.Call
		allInstrs(fn, func(ins ssa.Instruction) {
			if cl, ok := ins.(*ssa.Call); ok && callsRecvFieldValue(fn, cl.Common(), "getBackend") {
				gb = cl
			}
		})
		if gb == nil {
			c.Fail(name, "getBackend", c.Pos(fn.Pos()), "the backend is not obtained through getBackend")
			continue
		}
		// argument: instance name of the first digest parameter (or the instance name parameter)
		okArg := false
		arg := gb.Call.Args[0]
		if cl, ok := arg.(*ssa.Call); ok && isMethodCall(cl.Common(), dig, "GetInstanceName") {
			for _, p := range fn.Params[1:] {
				if types.Identical(p.Type(), dig) {
					okArg = cl.Call.Args[0] == ssa.Value(p)
					break
				}
			}
		} else if p, ok := arg.(*ssa.Parameter); ok && strings.HasSuffix(p.Type().String(), "InstanceName") {
			okArg = true
		}
		c.Check(okArg, name, "routing-name", c.Pos(gb.Pos()), "routed by the instance name of the operation's (parent) digest", "the backend is selected by something other than the instance name of the operation's digest")
		ext := func(v ssa.Value, idx int) bool {
			ex, ok := v.(*ssa.Extract)
			return ok && ex.Tuple == ssa.Value(gb) && ex.Index == idx
		}
		n := 0
		allInstrs(fn, func(ins ssa.Instruction) {
			cl, ok := ins.(*ssa.Call)
			if !ok || !cl.Call.IsInvoke() || !ext(cl.Call.Value, 0) {
				return
			}
			n++
			okDom := dominatedByErrNil(cl.Block(), gb)
			okPatch := true
			for _, a := range cl.Call.Args {
				if types.Identical(a.Type(), dig) {
					pc, ok := a.(*ssa.Call)
					if !ok || !pc.Call.IsInvoke() || pc.Call.Method.Name() != "PatchDigest" || !ext(pc.Call.Value, 2) {
						okPatch = false
					} else if _, isParam := pc.Call.Args[0].(*ssa.Parameter); !isParam {
						okPatch = false
					}
				}
				if strings.HasSuffix(a.Type().String(), "digest.InstanceName") {
					pc, ok := a.(*ssa.Call)
					if !ok || !pc.Call.IsInvoke() || pc.Call.Method.Name() != "PatchInstanceName" || !ext(pc.Call.Value, 2) {
						okPatch = false
					}
				}
			}
			why := "a backend is called although getBackend may have failed (unknown instance names must be rejected before any backend is contacted)"
			if okDom && !okPatch {
				why = "a digest (or instance name) reaches the backend without going through the PatchDigest / PatchInstanceName of the patcher that getBackend returned for this backend"
			}
			c.Check(okDom && okPatch, name, "backend-call", c.Pos(cl.Pos()), "called only after a successful getBackend, with digests patched by that backend's patcher", why)
		})
		if n == 0 {
			c.Fail(name, "backend-call", c.Pos(fn.Pos()), "no backend call found")
		}
		// backend name in errors
		usesName := false
		allInstrs(fn, func(ins ssa.Instruction) {
			if v, ok := ins.(ssa.Value); ok {
				_ = v
			}
			for _, op := range ins.Operands(nil) {
				if *op != nil && ext(*op, 1) {
					usesName = true
				}
				if *op != nil {
					if mi, ok := (*op).(*ssa.MakeInterface); ok && ext(mi.X, 1) {
						usesName = true
					}
				}
			}
		})
		c.Check(usesName, name, "backend-name", c.Pos(fn.Pos()), "errors carry the backend's name", "errors of the backend are not labelled with the backend's name")
	}
	// FindMissing
	fm := c.Method(blobstoreRel, "demultiplexingBlobAccess", "FindMissing")
	if fm == nil {
		c.Broken("demultiplexingBlobAccess.FindMissing not found")
		return
	}
	name := FuncName(fm)
	// partition.digests.Add(partition.patcher.PatchDigest(blobDigest))
	partitionOf := func(v ssa.Value) ssa.Value {
		// v = &partition.f or load of it: return the partition pointer value
		switch x := v.(type) {
		case *ssa.UnOp:
			if fa, ok := x.X.(*ssa.FieldAddr); ok {
				return fa.X
			}
		case *ssa.FieldAddr:
			return x.X
		}
		return nil
	}
	okIn, okOut, okAsk := false, false, false
	allInstrs(fm, func(ins ssa.Instruction) {
		cl, ok := ins.(*ssa.Call)
		if !ok {
			return
		}
		if callee := cl.Call.StaticCallee(); callee != nil && callee.Name() == "Add" && len(cl.Call.Args) == 2 {
			// which builder
			recvPart := partitionOf(cl.Call.Args[0])
			pc, isPC := cl.Call.Args[1].(*ssa.Call)
			if !isPC || !pc.Call.IsInvoke() {
				return
			}
			patchPart := partitionOf(pc.Call.Value)
			switch pc.Call.Method.Name() {
			case "PatchDigest":
				if recvPart != nil && sameSource(recvPart, patchPart) {
					if _, _, isElem := rangeElemOf(pc.Call.Args[0]); isElem {
						okIn = true
					}
				}
			case "UnpatchDigest":
				// argument: element of partitionMissing.Items(), partitionMissing from partition.backend.FindMissing
				X, _, isElem := rangeElemOf(pc.Call.Args[0])
				if !isElem {
					return
				}
				ic, isIC := X.(*ssa.Call)
				if !isIC || ic.Call.StaticCallee() == nil || ic.Call.StaticCallee().Name() != "Items" {
					return
				}
				ex, isEx := ic.Call.Args[0].(*ssa.Extract)
				if !isEx {
					return
				}
				bc, isBC := ex.Tuple.(*ssa.Call)
				if !isBC || !bc.Call.IsInvoke() || bc.Call.Method.Name() != "FindMissing" {
					return
				}
				if sameSource(partitionOf(bc.Call.Value), patchPart) {
					okOut = true
				}
				// asked about its own builder
				if b2, isB := bc.Call.Args[1].(*ssa.Call); isB && b2.Call.StaticCallee() != nil && b2.Call.StaticCallee().Name() == "Build" {
					if sameSource(partitionOf(b2.Call.Args[0]), partitionOf(bc.Call.Value)) {
						okAsk = true
					}
				}
			}
		}
	})
	c.Check(okIn, name, "patch-in", c.Pos(fm.Pos()), "every digest enters its partition through that partition's own patcher", "digests are added to a partition without going through that partition's PatchDigest")
	c.Check(okAsk, name, "own-set", c.Pos(fm.Pos()), "each backend is asked about its own partition's set", "a backend is not asked about exactly its own partition's digests")
	c.Check(okOut, name, "unpatch-out", c.Pos(fm.Pos()), "every digest a backend reports missing is translated back by that backend's patcher", "digests reported missing are not translated back through the UnpatchDigest of the partition that was asked")
	// getBackend failure rejects the whole call
	okRej := false
	propagates := func(g *ssa.Function, cl *ssa.Call) bool {
		ei := errIndex(g)
		if ei < 0 {
			return false
		}
		for _, r := range returnsOf(g) {
			if isErrResultOf(returnedValue(r, ei), cl) {
				return true
			}
		}
		return false
	}
	withOwnHelpers(fm, func(g *ssa.Function) {
		allInstrs(g, func(ins ssa.Instruction) {
			cl, ok := ins.(*ssa.Call)
			if !ok || !callsRecvFieldValue(g, cl.Common(), "getBackend") {
				return
			}
			if g == fm {
				if propagates(fm, cl) {
					okRej = true
				}
				return
			}
			// in a helper: the helper returns the error, and FindMissing returns the helper's
			if !propagates(g, cl) {
				return
			}
			allInstrs(fm, func(i2 ssa.Instruction) {
				if hc, ok := i2.(*ssa.Call); ok && hc.Call.StaticCallee() == g && propagates(fm, hc) {
					okRej = true
				}
			})
		})
	})
	c.Check(okRej, name, "unknown-rejected", c.Pos(fm.Pos()), "an unknown instance name fails the call", "an unknown instance name does not fail FindMissing")
}

func runR194(c *Ctx) {
	fn := c.Method(digestRel, "InstanceNameTrie", "GetLongestPrefix")
	if fn == nil {
		c.Broken("InstanceNameTrie.GetLongestPrefix not found")
		return
	}
	name := FuncName(fn)
	isValueLoad := func(v ssa.Value) bool {
		f, _ := loadedField(v)
		return f != nil && f.Name() == "value"
	}
	nonNeg := func(b *ssa.BasicBlock, v ssa.Value) bool {
		return dominatedByCmp(b, func(op token.Token, x, y ssa.Value) bool {
			k, isK := constInt(y)
			return isK && ((op == token.GEQ && k == 0) || (op == token.GTR && k == -1)) && (x == v || sameSource(x, v))
		})
	}
	// the best-so-far phi: an int phi one of whose edges is a load of .value in a loop
	n := 0
	allInstrs(fn, func(ins ssa.Instruction) {
		phi, ok := ins.(*ssa.Phi)
		if !ok || phi.Type().Underlying().String() != "int" {
			return
		}
		for i, e := range phi.Edges {
			if !isValueLoad(e) {
				continue
			}
			pred := phi.Block().Preds[i]
			// the initial value (root) needs no guard: it comes from the entry path
			if ld, ok := e.(*ssa.UnOp); ok {
				if fa, ok := ld.X.(*ssa.FieldAddr); ok {
					if fa2, ok := fa.X.(*ssa.FieldAddr); ok && fieldOf(fa2).Name() == "root" {
						continue
					}
				}
			}
			n++
			c.Check(nonNeg(pred, e), name, "best-so-far", c.Pos(e.Pos()), "the best match so far is replaced only by a node that carries a value", "the best match so far is overwritten by a node's value without testing that the node carries a value (>= 0): passing through an intermediate component would forget a shorter registered prefix")
		}
	})
	if n == 0 {
		c.Fail(name, "best-so-far", c.Pos(fn.Pos()), "no update of the best match found (the longest prefix is never tracked)")
	}
	for _, r := range returnsOf(fn) {
		v := r.Results[0]
		if isValueLoad(v) {
			// returning a node's value directly: root special case or guarded
			if ld, ok := v.(*ssa.UnOp); ok {
				if fa, ok := ld.X.(*ssa.FieldAddr); ok {
					if fa2, ok := fa.X.(*ssa.FieldAddr); ok && fieldOf(fa2).Name() == "root" {
						continue
					}
				}
			}
			c.Check(nonNeg(r.Block(), v), name, "final-component", c.Pos(r.Pos()), "a final component's value is returned only when it carries one", "a node's value is returned without testing that the node carries a value")
		}
	}
}

func runR195(c *Ctx) {
	fn := c.Method(blobstoreRel, "hierarchicalInstanceNamesBlobAccess", "FindMissing")
	if fn == nil {
		c.Broken("hierarchicalInstanceNamesBlobAccess.FindMissing not found")
		return
	}
	name := FuncName(fn)
	// element pointers that are overwritten as a whole
	nOver := 0
	allInstrs(fn, func(ins ssa.Instruction) {
		st, ok := ins.(*ssa.Store)
		if !ok {
			return
		}
		ia, ok := st.Addr.(*ssa.IndexAddr)
		if !ok {
			return
		}
		if _, isStruct := st.Val.Type().Underlying().(*types.Struct); !isStruct {
			return
		}
		nOver++
		// any read through ia (or its field addresses) reachable after the store without re-executing ia
		bad := token.NoPos
		var reads []ssa.Instruction
		if refs := ia.Referrers(); refs != nil {
			for _, r := range *refs {
				switch x := r.(type) {
				case *ssa.FieldAddr:
					for _, rr := range *x.Referrers() {
						if ld, ok := rr.(*ssa.UnOp); ok && ld.Op == token.MUL {
							reads = append(reads, ld)
						}
						if fa2, ok := rr.(*ssa.FieldAddr); ok {
							for _, r3 := range *fa2.Referrers() {
								if ld, ok := r3.(*ssa.UnOp); ok && ld.Op == token.MUL {
									reads = append(reads, ld)
								}
							}
						}
					}
				case *ssa.UnOp:
					if x.Op == token.MUL {
						reads = append(reads, x)
					}
				}
			}
		}
		for _, rd := range reads {
			if reachableAvoiding(st, rd, func(i ssa.Instruction) bool { return i == ssa.Instruction(ia) }) {
				bad = rd.Pos()
			}
		}
		c.Check(bad == token.NoPos, name, "read-after-overwrite", c.Pos(func() token.Pos {
			if bad == token.NoPos {
				return st.Pos()
			}
			return bad
		}()), "the element is not read through its pointer after the swap-remove overwrote it", "an element is read through its pointer after the swap-remove of the same iteration overwrote it with the last element: the wrong digest would be reported missing (and the exhausted one reported present)")
	})
	if nOver == 0 {
		c.Fail(name, "read-after-overwrite", c.Pos(fn.Pos()), "no pruning of the work list found")
	}
	// finallyMissing.Add sites inside the pruning loop: only when exhausted and still missing
	nAdd := 0
	allInstrs(fn, func(ins ssa.Instruction) {
		cl, ok := ins.(*ssa.Call)
		if !ok || cl.Call.StaticCallee() == nil || cl.Call.StaticCallee().Name() != "Add" {
			return
		}
		f, _ := loadedField(cl.Call.Args[1])
		if f == nil || f.Name() != "originalDigest" {
			return
		}
		nAdd++
		// dominated by: lookup in the missing set succeeded (commaok true) and len(parents) > 1 false
		stillMissing := false
		exhausted := dominatedByCmp(cl.Block(), func(op token.Token, x, y ssa.Value) bool {
			k, isK := constInt(y)
			if !isK {
				return false
			}
			if cc, ok := x.(*ssa.Call); ok {
				if bi, ok := cc.Call.Value.(*ssa.Builtin); ok && bi.Name() == "len" {
					return (op == token.LEQ && k == 1) || (op == token.LSS && k == 2) || (op == token.EQL && k == 1)
				}
			}
			return false
		})
		edgeFacts(cl.Block(), func(cond ssa.Value, val bool) bool {
			c0, v := cond, val
			if u, ok := c0.(*ssa.UnOp); ok && u.Op == token.NOT {
				c0, v = u.X, !v
			}
			if ex, ok := c0.(*ssa.Extract); ok && ex.Index == 1 {
				if lk, ok := ex.Tuple.(*ssa.Lookup); ok && lk.CommaOk && v {
					stillMissing = true
				}
			}
			return true
		})
		c.Check(stillMissing && exhausted, name, "report-missing", c.Pos(cl.Pos()), "reported missing only when the last ancestor asked about is missing and none is left", "a digest is reported missing although an ancestor was found or ancestors remain to be asked")
	})
	if nAdd == 0 {
		c.Fail(name, "report-missing", c.Pos(fn.Pos()), "digests whose ancestor chain is exhausted are never reported missing")
	}
}

func runR201(c *Ctx) {
	pkg := c.Pkg(digestRel)
	ndu := c.Method(digestRel, "Function", "newDigestUnchecked")
	if pkg == nil || ndu == nil {
		c.Broken("pkg/digest / Function.newDigestUnchecked not found")
		return
	}
	allowedCallers := map[string]string{
		"NewDigest": "after validating hash length, lowercase hex and size >= 0",
		"Sum":       "hash produced by hex.EncodeToString of the hasher's sum; size counted",
	}
	n := 0
	for _, f := range c.pkgFuncs(digestRel) {
		withAnon(f, func(g *ssa.Function) {
			allInstrs(g, func(ins ssa.Instruction) {
				cc := callOf(ins)
				if cc == nil || cc.StaticCallee() != ndu {
					return
				}
				n++
				why, ok := allowedCallers[topFunc(g).Name()]
				if ok && topFunc(g).Name() == "NewDigest" {
					// dominated by the three validations: two comparisons on the hash and `sizeBytes < 0` false
					okSize := dominatedByCmp(ins.Block(), func(op token.Token, x, y ssa.Value) bool {
						k, isK := constInt(y)
						p, isP := x.(*ssa.Parameter)
						return op == token.GEQ && isK && k == 0 && isP && p.Type().Underlying().String() == "int64"
					})
					okLen := dominatedByCmp(ins.Block(), func(op token.Token, x, y ssa.Value) bool {
						cl, isC := x.(*ssa.Call)
						if !isC {
							return false
						}
						bi, isB := cl.Call.Value.(*ssa.Builtin)
						return op == token.EQL && isB && bi.Name() == "len"
					})
					ok = okSize && okLen
					if !ok {
						why = "NewDigest no longer validates the hash length and the sign of the size before constructing the digest"
					}
				}
				if ok {
					c.Pass(FuncName(g), "newDigestUnchecked", c.Pos(ins.Pos()), "allowed caller: "+why)
				} else {
					if why == "" {
						why = "newDigestUnchecked is called from " + topFunc(g).Name() + ", which is not a validated constructor: malformed input (wrong hash length, non-hex characters, negative size) would be packed into a Digest that later parses differently or panics"
					}
					c.Fail(FuncName(g), "newDigestUnchecked", c.Pos(ins.Pos()), why)
				}
			})
		})
	}
	if n == 0 {
		c.Fail("digest", "newDigestUnchecked", "-", "no caller of newDigestUnchecked found")
	}
	// composite literals of Digest / InstanceName with fields set
	allowedLit := map[string]map[string]bool{
		"Digest":       {"newDigestUnchecked": true, "PatchDigest": true, "UnpatchDigest": true, "patchDigest": true, "GetDigestsWithParentInstanceNames": true},
		"InstanceName": {"NewInstanceName": true, "NewInstanceNameFromComponents": true, "GetInstanceName": true, "PatchInstanceName": true, "UnpatchInstanceName": true, "patchInstanceName": true, "GetDigestFunction": true, "unpack": true, "GetParent": true, "GetComponents": true},
	}
	for _, file := range pkg.Syntax {
		var fnName string
		ast.Inspect(file, func(node ast.Node) bool {
			if fd, ok := node.(*ast.FuncDecl); ok {
				fnName = fd.Name.Name
			}
			cl, ok := node.(*ast.CompositeLit)
			if !ok || len(cl.Elts) == 0 {
				return true
			}
			tv, ok := pkg.TypesInfo.Types[cl]
			if !ok {
				return true
			}
			nt, ok := tv.Type.(*types.Named)
			if !ok || nt.Obj().Pkg() != pkg.Types {
				return true
			}
			al, tracked := allowedLit[nt.Obj().Name()]
			if !tracked {
				return true
			}
			c.Check(al[fnName], fnName, "literal "+nt.Obj().Name(), c.Pos(cl.Pos()), "known construction site", fmt.Sprintf("a %s is constructed directly in %s, which is not one of the reviewed construction sites (validated constructors, patcher, projections)", nt.Obj().Name(), fnName))
			return true
		})
	}
}

func runR202(c *Ctx) {
	pkg := c.Pkg(digestRel)
	if pkg == nil {
		c.Broken("pkg/digest not found")
		return
	}
	// reserved keywords: keys of the map literal
	reserved := map[string]bool{}
	var resPos token.Pos
	for _, f := range pkg.Syntax {
		for _, d := range f.Decls {
			gd, ok := d.(*ast.GenDecl)
			if !ok {
				continue
			}
			for _, s := range gd.Specs {
				vs, ok := s.(*ast.ValueSpec)
				if !ok {
					continue
				}
				for i, nm := range vs.Names {
					if nm.Name != "reservedInstanceNameKeywords" || i >= len(vs.Values) {
						continue
					}
					resPos = nm.Pos()
					if cl, ok := vs.Values[i].(*ast.CompositeLit); ok {
						for _, e := range cl.Elts {
							if kv, ok := e.(*ast.KeyValueExpr); ok {
								if tv, ok := pkg.TypesInfo.Types[kv.Key]; ok && tv.Value != nil && tv.Value.Kind() == constant.String {
									reserved[constant.StringVal(tv.Value)] = true
								}
							}
						}
					}
				}
			}
		}
	}
	if len(reserved) == 0 {
		c.Fail("digest", "reserved-keywords", "-", "reservedInstanceNameKeywords not found or empty")
		return
	}
	// separators used by the ByteStream path parsers: string constants compared (== / switch) in functions NewDigestFromByteStream*Path
	n := 0
	for _, f := range pkg.Syntax {
		for _, d := range f.Decls {
			fd, ok := d.(*ast.FuncDecl)
			if !ok || fd.Body == nil || !strings.Contains(fd.Name.Name, "ByteStream") || !strings.HasPrefix(fd.Name.Name, "NewDigestFrom") && !strings.Contains(fd.Name.Name, "Path") {
				continue
			}
			ast.Inspect(fd.Body, func(node ast.Node) bool {
				check := func(e ast.Expr) {
					tv, ok := pkg.TypesInfo.Types[e]
					if !ok || tv.Value == nil || tv.Value.Kind() != constant.String {
						return
					}
					s := constant.StringVal(tv.Value)
					if s == "" {
						return
					}
					n++
					c.Check(reserved[s], fd.Name.Name, "separator "+s, c.Pos(e.Pos()), "the separator is a reserved keyword", "the path parser splits on "+fmt.Sprintf("%q", s)+", which is not a reserved instance-name keyword: an instance name containing it would make resource names ambiguous")
				}
				switch x := node.(type) {
				case *ast.BinaryExpr:
					if x.Op == token.EQL || x.Op == token.NEQ {
						check(x.X)
						check(x.Y)
					}
				case *ast.CaseClause:
					for _, e := range x.List {
						check(e)
					}
				}
				return true
			})
		}
	}
	if n == 0 {
		c.Fail("digest", "separators", c.Pos(resPos), "no separators found in the ByteStream path parsers")
	}
	// digest function tables
	sup := pkg.Types.Scope().Lookup("SupportedDigestFunctions")
	gbf := c.Func(digestRel, "getBareFunction")
	if sup == nil || gbf == nil {
		c.Broken("SupportedDigestFunctions / getBareFunction not found")
		return
	}
	// enum values of the supported list (from its initializer in init)
	var supported []int64
	if init := c.SSAPkg(digestRel).Func("init"); init != nil {
		allInstrs(init, func(ins ssa.Instruction) {
			st, ok := ins.(*ssa.Store)
			if !ok {
				return
			}
			if ia, ok := st.Addr.(*ssa.IndexAddr); ok {
				if k, ok := constInt(stripConv(st.Val)); ok && strings.HasSuffix(st.Val.Type().String(), "DigestFunction_Value") {
					_ = ia
					supported = append(supported, k)
				}
			}
		})
	}
	// case labels in getBareFunction and the enumValue stored in the returned bareFunction
	cases := map[int64]bool{}
	allInstrs(gbf, func(ins ssa.Instruction) {
		if bo, ok := ins.(*ssa.BinOp); ok && bo.Op == token.EQL {
			if k, ok := constInt(stripConv(bo.Y)); ok && strings.HasSuffix(bo.Y.Type().String(), "DigestFunction_Value") {
				cases[k] = true
			}
		}
	})
	okAll := len(supported) > 0
	var missing []int64
	for _, k := range supported {
		if !cases[k] {
			okAll = false
			missing = append(missing, k)
		}
		if k >= 100 {
			okAll = false
		}
	}
	c.Check(okAll, FuncName(gbf), "function-tables", c.Pos(gbf.Pos()), fmt.Sprintf("all %d supported digest functions have a case and fit two digits", len(supported)), fmt.Sprintf("supported digest functions %v have no case in getBareFunction (or an enum value does not fit the two-digit packing)", missing))
}

func runR204(c *Ctx) {
	setT := c.LookupType(digestRel, "Set")
	if setT == nil {
		c.Broken("digest.Set not found")
		return
	}
	n := 0
	for _, f := range c.pkgFuncs(digestRel) {
		// does the function append to a digests field?
		appends := false
		allInstrs(f, func(ins ssa.Instruction) {
			st, ok := ins.(*ssa.Store)
			if !ok {
				return
			}
			if fld := fieldOf(st.Addr); fld != nil && fld.Name() == "digests" {
				if cl, ok := st.Val.(*ssa.Call); ok {
					if bi, ok := cl.Call.Value.(*ssa.Builtin); ok && bi.Name() == "append" {
						appends = true
					}
				}
			}
		})
		allInstrs(f, func(ins ssa.Instruction) {
			st, ok := ins.(*ssa.Store)
			if !ok {
				return
			}
			fld := fieldOf(st.Addr)
			if fld == nil || fld.Name() != "digests" {
				return
			}
			sl, ok := st.Val.(*ssa.Slice)
			if !ok {
				return
			}
			// slice of another set's storage?
			src, _ := loadedField(sl.X)
			if fl, isF := sl.X.(*ssa.Field); isF {
				src = fieldOf(fl)
			}
			if src == nil || src.Name() != "digests" {
				return
			}
			n++
			if !appends {
				c.PassTrivial(FuncName(f), "shared-storage", c.Pos(sl.Pos()), "the function never appends to a set")
				return
			}
			c.Check(sl.Max != nil, FuncName(f), "shared-storage", c.Pos(sl.Pos()), "capacity clipped: a later append copies instead of writing into the original set", "a set is built from a sub-slice of another set's backing array without clipping its capacity, and the function appends to sets afterwards: the append overwrites elements of the original set and of sibling partitions")
		})
	}
	if n == 0 {
		c.Fail("digest", "shared-storage", "-", "no set built from another set's storage found (PartitionByInstanceName changed shape?)")
	}
	// SetBuilder.Build sorts
	if b := c.Method(digestRel, "SetBuilder", "Build"); b != nil {
		sorts := false
		allInstrs(b, func(ins ssa.Instruction) {
			if cc := callOf(ins); cc != nil {
				if o := calleeObjOf(cc); o != nil && o.Pkg() != nil && (o.Pkg().Path() == "sort" || o.Pkg().Path() == "slices") {
					sorts = true
				}
			}
		})
		c.Check(sorts, FuncName(b), "sorted", c.Pos(b.Pos()), "Build sorts the digests", "SetBuilder.Build no longer sorts: set operations rely on sorted, duplicate-free storage")
	}
}
