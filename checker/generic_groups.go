package main

import "sort"

// Package groups shared by the reference-through-time rule families.  The
// properties of a group are those that name a file of one of its packages as
// an anchor (properties.jsonl), plus those whose statement depends on what the
// package implements (kept from the rounds in which a seed showed it).
var pkgGroups = map[string]struct {
	props []string
	pkgs  []string
}{
	"local":        {[]string{"C01", "C02", "C03", "C04", "C05", "C06", "C07", "C08", "C10"}, []string{"pkg/blobstore/local"}},
	"buffer":       {[]string{"C09", "C15", "C16", "C10", "C01", "C08", "C04", "C11", "C14"}, []string{"pkg/blobstore/buffer"}},
	"mirrored":     {[]string{"C11"}, []string{"pkg/blobstore/mirrored"}},
	"sharding":     {[]string{"C12"}, []string{"pkg/blobstore/sharding"}},
	"completeness": {[]string{"C13"}, []string{"pkg/blobstore/completenesschecking"}},
	"grpc":         {[]string{"C14"}, []string{"pkg/blobstore/grpcservers", "pkg/blobstore/grpcclients"}},
	"replication":  {[]string{"C17", "C11"}, []string{"pkg/blobstore/replication", "pkg/blobstore/readcaching", "pkg/blobstore/readfallback"}},
	"top":          {[]string{"C18", "C19", "C17", "C08", "C13"}, []string{"pkg/blobstore", "pkg/auth"}},
	"digest":       {[]string{"C20", "C19", "C10", "C09", "C13", "C14", "C17", "C11", "C18", "C12"}, []string{"pkg/digest", "pkg/util"}},
	"config":       {[]string{"C02", "C03", "C07", "C08", "C11", "C12", "C17", "C18", "C19"}, []string{"pkg/blobstore/configuration", "pkg/auth/configuration"}},
}

type genericGroup struct {
	rule  string
	props []string
	pkgs  []string
}

// groupsOf resolves a family's table (rule id -> group names).
func groupsOf(table [][]string) []genericGroup {
	var out []genericGroup
	for _, row := range table {
		g := genericGroup{rule: row[0]}
		seen := map[string]bool{}
		for _, name := range row[1:] {
			pg, ok := pkgGroups[name]
			if !ok {
				panic("unknown package group " + name)
			}
			for _, p := range pg.props {
				if !seen[p] {
					seen[p] = true
					g.props = append(g.props, p)
				}
			}
			g.pkgs = append(g.pkgs, pg.pkgs...)
		}
		sort.Strings(g.props)
		out = append(out, g)
	}
	return out
}

// referenceConfig: the reference tables are computed for linux/amd64.  The other build
// configurations of the thorough tier exist for the rules that look at build-tagged files; comparing
// them with tables of another platform would compare different programs (math.MaxInt alone differs),
// so the reference families judge the reference configuration only and say so.
func referenceConfig(c *Ctx) bool {
	if c.Program.Config.GOOS == "linux" && c.Program.Config.GOARCH == "amd64" {
		return true
	}
	c.PassTrivial(c.Program.Config.String(), "reference-configuration", "-", "reference tables are those of linux/amd64; not compared on this configuration")
	return false
}
