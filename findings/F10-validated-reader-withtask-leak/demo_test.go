package seeddemo_test

// Demonstration for finding F10 (property C04; also C05: the refresh-on-read
// path is where WithTask is used).
//
// A buffer backed by a ReadAtCloser (what the local store hands out for an
// object whose integrity was validated earlier: the block keeps a use count
// that is dropped by Close()) is given a task with WithTask(), as
// flatBlobAccess.Get and hierarchicalCASBlobAccess.Get do when they refresh
// an object.  When the task fails, the buffer that comes back is consumed by
// the caller – and the ReadAtCloser must have been closed exactly once.  On
// the pinned tree validatedReaderBuffer.WithTask() returns a fresh error
// buffer and forgets the receiver: Close() is never called, so the block's
// use count never drops and its space never returns to the allocator.

import (
	"errors"
	"testing"

	"github.com/buildbarn/bb-storage/pkg/blobstore/buffer"
)

type countingReadAtCloser struct {
	data   []byte
	closed int
}

func (r *countingReadAtCloser) ReadAt(p []byte, off int64) (int, error) {
	return copy(p, r.data[off:]), nil
}

func (r *countingReadAtCloser) Close() error {
	r.closed++
	return nil
}

func TestWithTaskFailureReleasesReader(t *testing.T) {
	r := &countingReadAtCloser{data: []byte("Hello")}
	b := buffer.NewValidatedBufferFromReaderAt(r, 5)
	b = b.WithTask(func() error { return errors.New("finalizing the refreshed copy failed") })
	if _, err := b.ToByteSlice(100); err == nil {
		t.Fatal("the task's error must be reported as a read error")
	}
	if r.closed != 1 {
		t.Fatalf("the ReadAtCloser was closed %d times, want exactly once: the block reference is leaked", r.closed)
	}
}

func TestWithTaskSuccessReleasesReader(t *testing.T) {
	r := &countingReadAtCloser{data: []byte("Hello")}
	b := buffer.NewValidatedBufferFromReaderAt(r, 5).WithTask(func() error { return nil })
	if data, err := b.ToByteSlice(100); err != nil || string(data) != "Hello" {
		t.Fatalf("got %q, %v", data, err)
	}
	if r.closed != 1 {
		t.Fatalf("closed %d times, want 1", r.closed)
	}
}

func TestWithTaskFailureOnCloneReleasesReaderOnce(t *testing.T) {
	r := &countingReadAtCloser{data: []byte("Hello")}
	b1, b2 := buffer.NewValidatedBufferFromReaderAt(r, 5).CloneStream()
	b1 = b1.WithTask(func() error { return errors.New("task failed") })
	b1.Discard()
	if r.closed != 0 {
		t.Fatalf("closed %d times while a clone is still alive", r.closed)
	}
	b2.Discard()
	if r.closed != 1 {
		t.Fatalf("closed %d times after both clones were consumed, want 1", r.closed)
	}
}
