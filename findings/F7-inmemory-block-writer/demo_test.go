package zzdemo_test

import (
	"bytes"
	"testing"

	"github.com/buildbarn/bb-storage/pkg/blobstore/buffer"
	"github.com/buildbarn/bb-storage/pkg/blobstore/local"
	"github.com/buildbarn/bb-storage/pkg/digest"
	"io"
)

func TestInMemoryBlockReaderSource(t *testing.T) {
	ba := local.NewInMemoryBlockAllocator(1024)
	blk, _, err := ba.NewBlock()
	if err != nil {
		t.Fatal(err)
	}
	// first object fills 600 bytes, so < 512 bytes of capacity remain
	blk.Put(600)(buffer.NewValidatedBufferFromByteSlice(make([]byte, 600)))()
	payload := bytes.Repeat([]byte("x"), 100)
	d := digest.MustNewFunction("", 1).NewGenerator(100)
	d.Write(payload)
	dg := d.Sum()
	fin := blk.Put(100)(buffer.NewCASBufferFromReader(dg, io.NopCloser(bytes.NewReader(payload)), buffer.UserProvided))
	off, err := fin()
	if err != nil {
		t.Fatal(err)
	}
	got, err := blk.Get(dg, off, 100, func(bool) {}).ToByteSlice(1000)
	if err != nil {
		t.Fatal(err)
	}
	if !bytes.Equal(got, payload) {
		t.Fatalf("read back %q", got[:10])
	}
}
