package zzdemo_test

import (
	"bytes"
	"context"
	"io"
	"testing"

	remoteexecution "github.com/bazelbuild/remote-apis/build/bazel/remote/execution/v2"
	"github.com/buildbarn/bb-storage/pkg/blobstore"
	"github.com/buildbarn/bb-storage/pkg/blobstore/buffer"
	"github.com/buildbarn/bb-storage/pkg/blobstore/grpcservers"
	"github.com/buildbarn/bb-storage/pkg/blobstore/slicing"
	"github.com/buildbarn/bb-storage/pkg/digest"
	bb_zstd "github.com/buildbarn/bb-storage/pkg/zstd"
	"github.com/klauspost/compress/zstd"

	"google.golang.org/genproto/googleapis/bytestream"
	"google.golang.org/grpc"
)

type memStore struct {
	blobstore.BlobAccess
	data map[string][]byte
}

func (m *memStore) Get(ctx context.Context, d digest.Digest) buffer.Buffer {
	b, ok := m.data[d.GetKey(digest.KeyWithoutInstance)]
	if !ok {
		return buffer.NewBufferFromError(io.ErrUnexpectedEOF)
	}
	return buffer.NewCASBufferFromByteSlice(d, b, buffer.BackendProvided(func(bool) {}))
}

func (m *memStore) GetFromComposite(ctx context.Context, p, c digest.Digest, s slicing.BlobSlicer) buffer.Buffer {
	panic("unused")
}

func (m *memStore) Put(ctx context.Context, d digest.Digest, b buffer.Buffer) error {
	data, err := b.ToByteSlice(1 << 20)
	if err != nil {
		return err
	}
	m.data[d.GetKey(digest.KeyWithoutInstance)] = data
	return nil
}

func (m *memStore) FindMissing(ctx context.Context, s digest.Set) (digest.Set, error) { panic("unused") }
func (m *memStore) GetCapabilities(ctx context.Context, i digest.InstanceName) (*remoteexecution.ServerCapabilities, error) {
	panic("unused")
}

type readStream struct {
	grpc.ServerStream
	out bytes.Buffer
}

func (s *readStream) Context() context.Context { return context.Background() }
func (s *readStream) Send(r *bytestream.ReadResponse) error {
	s.out.Write(r.Data)
	return nil
}

type writeStream struct {
	grpc.ServerStream
	reqs []*bytestream.WriteRequest
	resp *bytestream.WriteResponse
}

func (s *writeStream) Context() context.Context { return context.Background() }
func (s *writeStream) Recv() (*bytestream.WriteRequest, error) {
	if len(s.reqs) == 0 {
		return nil, io.EOF
	}
	r := s.reqs[0]
	s.reqs = s.reqs[1:]
	return r, nil
}
func (s *writeStream) SendAndClose(r *bytestream.WriteResponse) error { s.resp = r; return nil }

func newPool() bb_zstd.Pool {
	return bb_zstd.NewUnboundedPool(
		[]zstd.EOption{zstd.WithEncoderConcurrency(1)},
		[]zstd.DOption{zstd.WithDecoderConcurrency(1)})
}

func TestCompressedReadAtOffset(t *testing.T) {
	payload := []byte("0123456789abcdefghijklmnopqrstuvwxyz")
	g := digest.MustNewFunction("inst", remoteexecution.DigestFunction_SHA256).NewGenerator(int64(len(payload)))
	g.Write(payload)
	d := g.Sum()
	st := &memStore{data: map[string][]byte{d.GetKey(digest.KeyWithoutInstance): payload}}
	srv := grpcservers.NewByteStreamServer(st, 8, newPool())
	out := &readStream{}
	err := srv.Read(&bytestream.ReadRequest{
		ResourceName: d.GetByteStreamReadPath(remoteexecution.Compressor_ZSTD),
		ReadOffset:   10,
	}, out)
	if err != nil {
		// an error is acceptable per the property
		return
	}
	dec, _ := zstd.NewReader(bytes.NewReader(out.out.Bytes()))
	got, _ := io.ReadAll(dec)
	if !bytes.Equal(got, payload[10:]) {
		t.Fatalf("read at offset 10 returned %q, want %q (or an error)", got, payload[10:])
	}
}

func TestCompressedWriteAtNonZeroInitialOffset(t *testing.T) {
	payload := []byte("hello world, this is the object")
	g := digest.MustNewFunction("inst", remoteexecution.DigestFunction_SHA256).NewGenerator(int64(len(payload)))
	g.Write(payload)
	d := g.Sum()
	var comp bytes.Buffer
	enc, _ := zstd.NewWriter(&comp)
	enc.Write(payload)
	enc.Close()
	st := &memStore{data: map[string][]byte{}}
	srv := grpcservers.NewByteStreamServer(st, 8, newPool())
	ws := &writeStream{reqs: []*bytestream.WriteRequest{{
		ResourceName: d.GetByteStreamWritePath([16]byte{1}, remoteexecution.Compressor_ZSTD),
		WriteOffset:  7,
		Data:         comp.Bytes(),
		FinishWrite:  true,
	}}}
	err := srv.Write(ws)
	if err == nil {
		t.Fatalf("upload whose first request has write_offset 7 was accepted (stored=%v)", len(st.data) == 1)
	}
}
