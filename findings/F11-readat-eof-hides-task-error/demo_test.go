package seeddemo_test

import (
	"errors"
	"io"
	"testing"

	remoteexecution "github.com/bazelbuild/remote-apis/build/bazel/remote/execution/v2"
	"github.com/buildbarn/bb-storage/pkg/blobstore/buffer"
	"github.com/buildbarn/bb-storage/pkg/digest"
)

func TestReadAtShortReadReportsTaskError(t *testing.T) {
	d := digest.MustNewDigest("x", remoteexecution.DigestFunction_SHA256, "185f8db32271fe25f561a6fc938b2e264306ec304eda518007d1764826381969", 5)
	b := buffer.NewCASBufferFromReader(d, io.NopCloser(readerOf("Hello")), buffer.UserProvided).
		WithTask(func() error { return errors.New("finalizing the refreshed copy failed") })
	p := make([]byte, 10)
	n, err := b.ReadAt(p, 0)
	t.Logf("n=%d err=%v", n, err)
	if err == nil || err == io.EOF {
		t.Fatalf("the read completed (%d bytes, err=%v) although the attached task failed", n, err)
	}
}

type stringReader struct {
	s string
	i int
}

func readerOf(s string) io.Reader { return &stringReader{s: s} }
func (r *stringReader) Read(p []byte) (int, error) {
	if r.i >= len(r.s) {
		return 0, io.EOF
	}
	n := copy(p, r.s[r.i:])
	r.i += n
	return n, nil
}
