package zzdemo_test

import (
	"bytes"
	"io"
	"testing"

	remoteexecution "github.com/bazelbuild/remote-apis/build/bazel/remote/execution/v2"
	"github.com/buildbarn/bb-storage/pkg/blobstore/buffer"
	"github.com/buildbarn/bb-storage/pkg/digest"
)

// A buffer that carries a background task (what flatBlobAccess.Get returns
// while it refreshes an object) is cloned, and the clone is asked for its
// size - which is what every local store's Put() does first.
func TestCloneOfBufferWithTaskKeepsWorking(t *testing.T) {
	payload := []byte("hello world")
	g := digest.MustNewFunction("inst", remoteexecution.DigestFunction_SHA256).NewGenerator(int64(len(payload)))
	g.Write(payload)
	d := g.Sum()
	b := buffer.NewCASBufferFromReader(d, io.NopCloser(bytes.NewReader(payload)), buffer.UserProvided).
		WithTask(func() error { return nil })
	b1, b2 := b.CloneStream()
	done := make(chan struct{})
	go func() {
		defer close(done)
		b2.Discard()
	}()
	defer func() {
		if r := recover(); r != nil {
			t.Fatalf("GetSizeBytes() on a clone of a buffer with a background task panicked: %v", r)
		}
	}()
	size, err := b1.GetSizeBytes()
	if err != nil || size != int64(len(payload)) {
		t.Fatalf("size %d err %v", size, err)
	}
	data, err := b1.ToByteSlice(100)
	<-done
	if err != nil || !bytes.Equal(data, payload) {
		t.Fatalf("data %q err %v", data, err)
	}
}
