package seeddemo_test

// Demonstration for finding F9 (properties C14, C09).
//
// Connects the CAS gRPC client of this repository (with ZSTD compression
// negotiated) back to back with the ByteStream server of this
// repository over an in-memory connection, in front of a model backend
// (harness written by a seeding sub-agent for another purpose). A plain,
// successful compressed download of an object that the backend holds must
// return the object. On the pinned tree zstdByteStreamChunkReader.Read()
// can return the last decompressed bytes *together with* io.EOF; the
// validating chunk reader treats io.EOF as "no more data", drops that
// chunk and reports the healthy object as too short (INTERNAL).

import (
	"bytes"
	"context"
	"crypto/sha256"
	"encoding/hex"
	"net"
	"sync"
	"testing"

	remoteexecution "github.com/bazelbuild/remote-apis/build/bazel/remote/execution/v2"
	"github.com/buildbarn/bb-storage/pkg/blobstore"
	"github.com/buildbarn/bb-storage/pkg/blobstore/buffer"
	"github.com/buildbarn/bb-storage/pkg/blobstore/grpcclients"
	"github.com/buildbarn/bb-storage/pkg/blobstore/grpcservers"
	"github.com/buildbarn/bb-storage/pkg/blobstore/slicing"
	"github.com/buildbarn/bb-storage/pkg/digest"
	bb_zstd "github.com/buildbarn/bb-storage/pkg/zstd"
	"github.com/google/uuid"

	"google.golang.org/genproto/googleapis/bytestream"
	"google.golang.org/grpc"
	"google.golang.org/grpc/codes"
	"google.golang.org/grpc/credentials/insecure"
	"google.golang.org/grpc/status"
	"google.golang.org/grpc/test/bufconn"
)

// failingChunkReader yields a prefix of an object, followed by an error.
type failingChunkReader struct {
	chunks [][]byte
	err    error
}

func (r *failingChunkReader) Read() ([]byte, error) {
	if len(r.chunks) == 0 {
		return nil, r.err
	}
	c := r.chunks[0]
	r.chunks = r.chunks[1:]
	return c, nil
}

func (r *failingChunkReader) Close() {}

// modelBackend is a map based BlobAccess. Objects listed in
// 'failAfter' yield that many bytes, followed by an UNAVAILABLE error
// (e.g., a storage node that disappears halfway through a transfer).
type modelBackend struct {
	lock      sync.Mutex
	blobs     map[string][]byte
	failAfter map[string]int
}

func (ba *modelBackend) Get(ctx context.Context, d digest.Digest) buffer.Buffer {
	ba.lock.Lock()
	defer ba.lock.Unlock()
	key := d.GetKey(digest.KeyWithInstance)
	data, ok := ba.blobs[key]
	if !ok {
		return buffer.NewBufferFromError(status.Error(codes.NotFound, "Object not found"))
	}
	if n, ok := ba.failAfter[key]; ok {
		return buffer.NewCASBufferFromChunkReader(
			d,
			&failingChunkReader{
				chunks: [][]byte{data[:n]},
				err:    status.Error(codes.Unavailable, "Storage node went away"),
			},
			buffer.BackendProvided(buffer.Irreparable(d)))
	}
	return buffer.NewCASBufferFromByteSlice(d, data, buffer.BackendProvided(buffer.Irreparable(d)))
}

func (ba *modelBackend) GetFromComposite(ctx context.Context, parentDigest, childDigest digest.Digest, slicer slicing.BlobSlicer) buffer.Buffer {
	return buffer.NewBufferFromError(status.Error(codes.Unimplemented, "Not supported by the model"))
}

func (ba *modelBackend) Put(ctx context.Context, d digest.Digest, b buffer.Buffer) error {
	data, err := b.ToByteSlice(1 << 20)
	if err != nil {
		return err
	}
	ba.lock.Lock()
	defer ba.lock.Unlock()
	ba.blobs[d.GetKey(digest.KeyWithInstance)] = data
	return nil
}

func (ba *modelBackend) FindMissing(ctx context.Context, digests digest.Set) (digest.Set, error) {
	ba.lock.Lock()
	defer ba.lock.Unlock()
	missing := digest.NewSetBuilder(0)
	for _, d := range digests.Items() {
		if _, ok := ba.blobs[d.GetKey(digest.KeyWithInstance)]; !ok {
			missing.Add(d)
		}
	}
	return missing.Build(), nil
}

func (ba *modelBackend) GetCapabilities(ctx context.Context, instanceName digest.InstanceName) (*remoteexecution.ServerCapabilities, error) {
	return &remoteexecution.ServerCapabilities{}, nil
}

// capabilitiesServer announces support for ZSTD, so that the client
// uses compressed-blobs/zstd resource names.
type capabilitiesServer struct{}

func (capabilitiesServer) GetCapabilities(ctx context.Context, in *remoteexecution.GetCapabilitiesRequest) (*remoteexecution.ServerCapabilities, error) {
	return &remoteexecution.ServerCapabilities{
		CacheCapabilities: &remoteexecution.CacheCapabilities{
			DigestFunctions:      []remoteexecution.DigestFunction_Value{remoteexecution.DigestFunction_SHA256},
			SupportedCompressors: []remoteexecution.Compressor_Value{remoteexecution.Compressor_ZSTD},
		},
	}, nil
}

func digestOf(data []byte) digest.Digest {
	sum := sha256.Sum256(data)
	return digest.MustNewDigest("main", remoteexecution.DigestFunction_SHA256, hex.EncodeToString(sum[:]), int64(len(data)))
}

func payload(n int, seed byte) []byte {
	data := make([]byte, n)
	for i := range data {
		data[i] = byte(i*11+i/7) ^ seed
	}
	return data
}

// setUp returns the backend and a client that is connected to a server
// in front of that backend.
func setUp(t *testing.T) (*modelBackend, blobstore.BlobAccess) {
	backend := &modelBackend{blobs: map[string][]byte{}, failAfter: map[string]int{}}
	pool := bb_zstd.NewUnboundedPool(nil, nil)

	listener := bufconn.Listen(1 << 20)
	server := grpc.NewServer()
	bytestream.RegisterByteStreamServer(server, grpcservers.NewByteStreamServer(backend, 1024, pool))
	remoteexecution.RegisterContentAddressableStorageServer(server, grpcservers.NewContentAddressableStorageServer(backend, 1<<20))
	remoteexecution.RegisterCapabilitiesServer(server, capabilitiesServer{})
	go server.Serve(listener)
	t.Cleanup(server.Stop)

	conn, err := grpc.NewClient(
		"passthrough:///bufnet",
		grpc.WithContextDialer(func(ctx context.Context, _ string) (net.Conn, error) { return listener.DialContext(ctx) }),
		grpc.WithTransportCredentials(insecure.NewCredentials()))
	if err != nil {
		t.Fatal(err)
	}
	t.Cleanup(func() { conn.Close() })

	return backend, grpcclients.NewCASBlobAccess(conn, uuid.NewRandom, 1024, pool)
}


func TestCompressedDownloadOfPresentObject(t *testing.T) {
	backend, client := setUp(t)
	ctx := context.Background()
	failures := 0
	var firstErr error
	const rounds = 60
	for i := 0; i < rounds; i++ {
		data := payload(5000+i, byte(i))
		d := digestOf(data)
		backend.lock.Lock()
		backend.blobs[d.GetKey(digest.KeyWithInstance)] = data
		backend.lock.Unlock()
		got, err := client.Get(ctx, d).ToByteSlice(1 << 20)
		if err != nil || !bytes.Equal(got, data) {
			failures++
			if firstErr == nil {
				firstErr = err
			}
		}
	}
	if failures > 0 {
		t.Fatalf("%d of %d compressed downloads of objects the backend holds failed; first error: %v", failures, rounds, firstErr)
	}
}
